(* Decidable form of property C09 (registration protocol), evaluated on what the implementation was observed to do:
   for a history `ops` and the per-operation observations `outs` (result, callbacks, commands written to the ring)
   `holds_c09` runs a small specification automaton - one life-cycle per registration, independent of the
   conductor model - and checks every observation against it:

     Awaiting --first ready answer--> Ready --first lookup--> Ready(handle h) --drop--> Gone
     Awaiting --first error answer--> Errored --first lookup reports it--> Gone        (destinations keep reporting it)

   - an accepted add returns an id larger than every id seen before and writes exactly the one command of its
     kind carrying the caller's arguments, the client id and that id; a rejected add writes nothing, and an add is only
     rejected for a reason: IllegalArgument only for illegal arguments (a counter key / label over its limit, a command that
     does not fit the 512-byte command buffer - one that fits exactly is legal), IllegalState only while the ring is full,
     Closed only once the client is closed;
   - calling the public close() of a publication handle writes nothing and leaves the registration alone: the later drop
     still writes its one Remove command;
   - a lookup answers NotReady (destinations: false) while Awaiting within the driver time-out, NoResponse after it;
     after the first matching ready answer it yields a handle, the same one on every lookup while it is held; after
     an error answer it reports the driver's code once; lookups never write commands;
   - duplicated answers, answers for ids of another kind and for unknown ids change nothing and fire no on_new_*
     callback;
   - dropping a held handle of an open client writes exactly one Remove* command with the registration id;
   - the first close writes exactly one ClientClose, a later one nothing;
   - while the driver does not read its command ring and the ring is full (SetRingFull, an input of the history) a drop
     and a close write nothing; a dropped subscription is released locally all the same;
   - a channel endpoint error (error code 4: the id it carries is a channel status indicator id, compared as i32) ends every
     registration whose handle exists and sits on that channel status indicator - a subscription from its ready answer on,
     a publication / exclusive publication from its first lookup on: later lookups report it unknown (NotFound) and
     dropping the (closed) handle writes no command; every other registration is untouched;
   - every command carries the client id and a correlation id larger than all before.
   Where the statement is silent (an error answer after a ready answer, two different error answers) the
   registration becomes `LAny` and is not judged any more. Panic / Hang of a duty cycle or of close is judged by
   C10; here they end the judged part of the history. *)
Require Import V.Base.MachineInt.
Require Import V.Generated.GenConsts.
Require Import V.Model.Conductor.
Open Scope Z_scope.

Inductive life :=
| LAwait (t0 a1 a2 : Z)                    (* time of the accepted add, the caller's first two arguments *)
| LReady (h : option Z) (d1 d2 d3 : Z)     (* the resource the driver announced; h: the handle the user holds *)
| LErr (code : Z)
| LGone
| LAny.

Record ost := mkO {
  q_now : Z;
  q_closed : bool;
  q_regs : list (kind * Z * life);
  q_max : Z;            (* largest correlation id seen (the client id at the start) *)
  q_hmax : Z;           (* handle numbers seen are below this *)
  q_close_sent : bool
}.

Definition oinit (c0 now0 : Z) : ost := mkO now0 false [] c0 0 false.

Fixpoint rlookup (k : kind) (r : Z) (l : list (kind * Z * life)) : option life :=
  match l with
  | [] => None
  | (k', r', x) :: t => if kind_eqb k' k && (r' =? r) then Some x else rlookup k r t
  end.
Definition rset (k : kind) (r : Z) (x : life) (l : list (kind * Z * life)) : list (kind * Z * life) :=
  map (fun p => if kind_eqb (fst (fst p)) k && (snd (fst p) =? r) then (fst p, x) else p) l.
(* an error answer concerns the registration with that id whatever its kind *)
Definition err_tr (code : Z) (x : life) : life :=
  match x with LAwait _ _ _ => LErr code | LReady _ _ _ _ => LAny | LErr _ => LAny | y => y end.
Definition rerror (r code : Z) (l : list (kind * Z * life)) : list (kind * Z * life) :=
  map (fun p => if snd (fst p) =? r then (fst p, err_tr code (snd p)) else p) l.

(* a channel endpoint error for the channel status indicator id x *)
Definition chan_tr (k : kind) (x : Z) (l : life) : life :=
  match l with
  | LReady h d1 d2 d3 =>
      match k with
      | KSub => if d1 =? wrap32 x then LGone else l
      | KPub | KXPub => match h with Some _ => if d2 =? wrap32 x then LGone else l | None => l end
      | _ => l
      end
  | _ => l
  end.
Definition rchan (x : Z) (l : list (kind * Z * life)) : list (kind * Z * life) :=
  map (fun p => (fst p, chan_tr (fst (fst p)) x (snd p))) l.

Definition list_eqb (a b : list Z) : bool :=
  (Z.of_nat (length a) =? Z.of_nat (length b)) && forallb (fun p => fst p =? snd p) (combine a b).
Definition cmd_eqb (a b : cmd) : bool :=
  match a, b with Cmd t1 c1 i1 l1, Cmd t2 c2 i2 l2 => (t1 =? t2) && (c1 =? c2) && (i1 =? i2) && list_eqb l1 l2 end.
Definition cb_eqb (a b : cb) : bool :=
  match a, b with
  | CbNewPub a1 a2 a3 a4, CbNewPub b1 b2 b3 b4 => (a1 =? b1) && (a2 =? b2) && (a3 =? b3) && (a4 =? b4)
  | CbNewXPub a1 a2 a3 a4, CbNewXPub b1 b2 b3 b4 => (a1 =? b1) && (a2 =? b2) && (a3 =? b3) && (a4 =? b4)
  | CbNewSub a1 a2 a3, CbNewSub b1 b2 b3 => (a1 =? b1) && (a2 =? b2) && (a3 =? b3)
  | _, _ => false
  end.
Definition is_new_cb (c : cb) : bool :=
  match c with CbNewPub _ _ _ _ | CbNewXPub _ _ _ _ | CbNewSub _ _ _ => true | _ => false end.
Definition is_close_cb (c : cb) : bool := match c with CbClose => true | _ => false end.
Definition cmd_corr (c : cmd) : Z := match c with Cmd _ _ i _ => i end.

Definition set_regs l (q : ost) := mkO (q_now q) (q_closed q) l (q_max q) (q_hmax q) (q_close_sent q).
Definition set_qmax v (q : ost) := mkO (q_now q) (q_closed q) (q_regs q) v (q_hmax q) (q_close_sent q).
Definition set_qclosed v (q : ost) := mkO (q_now q) v (q_regs q) (q_max q) (q_hmax q) (q_close_sent q).

Definition is_err (r : res) : bool := match r with Err _ => true | _ => false end.
Definition res_is (r : res) (e : err) : bool :=
  match r, e with
  | Err NotReady, NotReady | Err NoResponse, NoResponse | Err Closed, Closed | Err NotFound, NotFound => true
  | Err (Registration a), Registration b => a =? b
  | _, _ => false
  end.
Definition res_ok1 (r : res) : option Z := match r with Ok [v] => Some v | _ => None end.

(* the first ready answer for an Awaiting registration of the right kind; returns the new registrations and the
   on_new_* callback that has to fire (None: no on_new_* callback may fire) *)
Definition ready_step (ev : event) (q : ost) : list (kind * Z * life) * option cb :=
  let tr k r d1 d2 d3 (c : Z -> Z -> option cb) :=
    match rlookup k r (q_regs q) with
    | Some (LAwait _ a1 a2) => (rset k r (LReady None d1 d2 d3) (q_regs q), c a1 a2)
    | _ => (q_regs q, None)
    end in
  match ev with
  | EvPubReady corr orig stream session limit chstat =>
      tr KPub corr session chstat orig (fun a1 _ => Some (CbNewPub corr stream session a1))
  | EvXPubReady id stream session limit chstat =>
      tr KXPub id session chstat 0 (fun a1 _ => Some (CbNewXPub id stream session a1))
  | EvSubReady corr chstat =>
      tr KSub corr chstat 0 0 (fun a1 a2 => Some (CbNewSub corr a2 a1))
  | EvCounterReady corr cid => tr KCtr corr cid 0 0 (fun _ _ => None)
  | EvOpSuccess corr => tr KDest corr 0 0 0 (fun _ _ => None)
  | EvError corr code => (rerror corr code (q_regs q), None)
  | EvChanError x => (rchan x (q_regs q), None)
  | _ => (q_regs q, None)
  end.

Inductive verdict := Bad | Stop | Next (q : ost).

Definition c09_step (c0 tdrv : Z) (full : bool) (q : ost) (o : op) (x : out) : verdict :=
  let '(r, cbs, cmds) := x in
  match o with
  | Add k a1 a2 a3 =>
      match r with
      | Ok [id] =>
          if (q_max q <? id) && negb (existsb is_new_cb cbs) &&
             match cmds with [c] => cmd_eqb c (Cmd (add_cmd_type k a1) c0 id (add_cmd_args k a1 a2 a3)) | _ => false end
          then Next (set_qmax id (set_regs (q_regs q ++ [(k, id, LAwait (q_now q) a1 a2)]) q))
          else Bad
      | Err e =>
          match cmds with
          | [] =>
              if match e with
                 | IllegalArg => add_illegal k a1 a2 a3
                 | IllegalState => full
                 | Closed => q_closed q
                 | _ => true
                 end
              then Next q else Bad
          | _ => Bad
          end
      | _ => Bad
      end
  | Find k r' =>
      match cmds with
      | _ :: _ => Bad
      | [] =>
        match r with Panic | Hang | Crash => Bad | _ =>
        if q_closed q then (if is_err r then Next q else Bad)
        else match rlookup k r' (q_regs q) with
        | None => if is_err r then Next q else Bad
        | Some (LAwait t0 _ _) =>
            if t0 + tdrv <? q_now q then (if res_is r NoResponse then Next q else Bad)
            else match k with
                 | KDest => match res_ok1 r with Some 0 => Next q | _ => Bad end
                 | _ => if res_is r NotReady then Next q else Bad
                 end
        | Some (LReady None d1 d2 d3) =>
            match k with
            | KDest => match res_ok1 r with Some 1 => Next q | _ => Bad end
            | _ => match res_ok1 r with
                   | Some h => if q_hmax q <=? h
                               then Next (mkO (q_now q) (q_closed q) (rset k r' (LReady (Some h) d1 d2 d3) (q_regs q)) (q_max q) (h + 1) (q_close_sent q))
                               else Bad
                   | None => Bad
                   end
            end
        | Some (LReady (Some h) _ _ _) => match res_ok1 r with Some h' => if h' =? h then Next q else Bad | None => Bad end
        | Some (LErr code) =>
            if res_is r (Registration code)
            then match k with KDest => Next q | _ => Next (set_regs (rset k r' LGone (q_regs q)) q) end
            else Bad
        | Some LGone => if res_is r NotFound then Next q else Bad     (* reported once: afterwards the registration is unknown *)
        | Some LAny => Next q
        end end
      end
  | DropHandle k r' =>
      match r with Panic | Hang | Crash => Bad | _ =>
      let bump := set_qmax (fold_left Z.max (map cmd_corr cmds) (q_max q)) q in
      if q_closed q
      then match rlookup k r' (q_regs q) with
           | Some (LReady (Some _) _ _ _) => Next (set_regs (rset k r' LGone (q_regs bump)) bump)   (* the handle is gone *)
           | _ => Next bump
           end
      else match rlookup k r' (q_regs q) with
      | Some (LReady (Some _) _ _ _) =>
          if full then
            (* the ring refuses the Remove command: nothing is written; a subscription / exclusive publication is released
               locally all the same, what a publication / counter registration looks like afterwards is not specified *)
            match cmds with
            | [] => Next (set_regs (rset k r' (match k with KSub | KXPub => LGone | _ => LAny end) (q_regs q)) q)
            | _ => Bad
            end
          else
          match cmds with
          | [Cmd ty cid id [a]] =>
              if (ty =? remove_cmd_type k) && (cid =? c0) && (q_max q <? id) && (a =? r')
              then Next (set_qmax id (set_regs (rset k r' LGone (q_regs q)) q)) else Bad
          | _ => Bad
          end
      | Some LAny => Next (set_regs (rset k r' LAny (q_regs bump)) bump)
      | _ => match cmds with [] => Next q | _ => Bad end
      end end
  | Peek k r' =>
      match r with Panic | Hang | Crash => Bad | _ =>
      if q_closed q then Next q else       (* what a handle looks like after the close is C10's business *)
      match rlookup k r' (q_regs q), r with
      | Some (LReady (Some h) d1 d2 d3), Ok [h'; _; _; e1; e2; e3] =>
          if (h' =? h) && (e1 =? d1) && (e2 =? d2) && (e3 =? d3) then Next q else Bad
      | Some (LReady (Some h) _ _ _), _ => Bad
      | _, _ => Next q
      end end
  | Close =>
      match r with
      | Panic | Hang | Crash => Stop
      | _ =>
        if q_close_sent q then match cmds with [] => Next (set_qclosed true q) | _ => Bad end
        else if full then match cmds with [] => Next (mkO (q_now q) true (q_regs q) (q_max q) (q_hmax q) true) | _ => Bad end
        else match cmds with
             | [Cmd ty cid id []] =>
                 if (ty =? GenConsts.CMD_ClientClose) && (cid =? c0) && (q_max q <? id)
                 then Next (mkO (q_now q) true (q_regs q) id (q_hmax q) true) else Bad
             | _ => Bad
             end
      end
  | Tick d => Next (mkO (q_now q + d) (q_closed q) (q_regs q) (q_max q) (q_hmax q) (q_close_sent q))
  | SetDriverHb _ | SetHbCounter _ | SetRingFull _ => Next q
  | CloseHandle _ _ =>
      match r with Panic | Hang | Crash => Bad | _ => match cmds, cbs with [], [] => Next q | _, _ => Bad end end
  | DoWork b =>
      match r with
      | Panic | Hang | Crash => Stop
      | Err _ => match cmds with [] => Next (if existsb is_close_cb cbs then set_qclosed true q else q) | _ => Bad end
      | Ok _ =>
        match cmds with
        | _ :: _ => Bad
        | [] =>
          let q' := if existsb is_close_cb cbs then set_qclosed true q else q in
          match b with
          | BEvent ev =>
              if q_closed q then (if existsb is_new_cb cbs then Bad else Next q')
              else
                let '(regs', c) := ready_step ev q in
                match c with
                | Some c' => if existsb (cb_eqb c') cbs && (Z.of_nat (length (filter is_new_cb cbs)) =? 1)
                             then Next (set_regs regs' q') else Bad
                | None => if existsb is_new_cb cbs then Bad else Next (set_regs regs' q')
                end
          | _ => if existsb is_new_cb cbs then Bad else Next q'
          end
        end
      end
  end.

Fixpoint c09_run (c0 tdrv : Z) (full : bool) (q : ost) (ops : list op) (outs : list out) : bool :=
  match ops, outs with
  | o :: ops', x :: outs' =>
      match c09_step c0 tdrv full q o x with
      | Bad => false
      | Stop => true
      | Next q' => c09_run c0 tdrv (match o with SetRingFull b => b | _ => full end) q' ops' outs'
      end
  | _, _ => true
  end.

Definition holds_c09 (c0 now0 tdrv tis : Z) (ops : list op) (outs : list out) : bool :=
  c09_run c0 tdrv false (oinit c0 now0) ops outs.
